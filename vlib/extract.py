"""Rust-aware item / match-arm extractor over /repo/src.

Not a regex over lines: a small lexer that understands line and (nested) block comments,
string / raw-string / byte-string / char literals and lifetimes, and a bracket matcher built on
it.  Everything returned is a byte-for-byte slice of the source file (callers may then drop doc
comments / attributes with `strip_docs`).

Anchors
-------
An anchor is a list of steps, each step `kind:name`:

    impl:Correctness/fn:and_b        the fn `and_b` inside `impl Correctness {`
    impl:Ord for Witness/fn:cmp      header is matched on its normalised text (whitespace and
                                     generics-insensitive prefix match, see `_norm_header`)
    fn:lex                           free function
    enum:Base   struct:Type   const:MAX   trait:Foo   type:Alias   static:X
    match:*fragment                  first `match <scrutinee> {` whose scrutinee text starts with
                                     the given text (whitespace-insensitive) inside the current
                                     region; yields the *body* between the braces

A missing anchor raises AnchorLost (the driver turns that into exit 2 / UNDECIDED).
"""
import re


class AnchorLost(Exception):
    pass


# ----------------------------------------------------------------------------------------------
# lexer: yields (kind, start, end) with kind in {'ws','comment','doc','str','char','life','punct',
# 'ident','num'}
# ----------------------------------------------------------------------------------------------

_IDENT_START = set("abcdefghijklmnopqrstuvwxyzABCDEFGHIJKLMNOPQRSTUVWXYZ_")
_IDENT_CONT = _IDENT_START | set("0123456789")


def lex(src, start=0, end=None):
    n = len(src) if end is None else end
    i = start
    while i < n:
        c = src[i]
        if c in " \t\r\n":
            j = i + 1
            while j < n and src[j] in " \t\r\n":
                j += 1
            yield ("ws", i, j)
            i = j
        elif src.startswith("//", i):
            j = src.find("\n", i)
            if j < 0 or j > n:
                j = n
            kind = "doc" if (src.startswith("///", i) and not src.startswith("////", i)) or src.startswith("//!", i) else "comment"
            yield (kind, i, j)
            i = j
        elif src.startswith("/*", i):
            depth = 1
            j = i + 2
            while j < n and depth:
                if src.startswith("/*", j):
                    depth += 1
                    j += 2
                elif src.startswith("*/", j):
                    depth -= 1
                    j += 2
                else:
                    j += 1
            kind = "doc" if src.startswith("/**", i) and not src.startswith("/**/", i) else "comment"
            yield (kind, i, j)
            i = j
        elif c == '"' or (c == "b" and src.startswith('b"', i)):
            j = i + (2 if c == "b" else 1)
            while j < n and src[j] != '"':
                j += 2 if src[j] == "\\" else 1
            yield ("str", i, j + 1)
            i = j + 1
        elif (c == "r" and re.match(r'r#*"', src[i:i + 70])) or (c == "b" and re.match(r'br#*"', src[i:i + 70])):
            m = re.match(r'b?r(#*)"', src[i:i + 70])
            closer = '"' + m.group(1)
            j = src.find(closer, i + m.end())
            yield ("str", i, j + len(closer))
            i = j + len(closer)
        elif c == "'":
            # char literal or lifetime
            m = re.match(r"'(\\.[^']*|[^'\\])'", src[i:i + 16])
            if m:
                yield ("char", i, i + m.end())
                i += m.end()
            else:
                j = i + 1
                while j < n and src[j] in _IDENT_CONT:
                    j += 1
                yield ("life", i, j)
                i = j
        elif c == "b" and src.startswith("b'", i):
            m = re.match(r"b'(\\.[^']*|[^'\\])'", src[i:i + 16])
            yield ("char", i, i + m.end())
            i += m.end()
        elif c in _IDENT_START:
            j = i + 1
            while j < n and src[j] in _IDENT_CONT:
                j += 1
            yield ("ident", i, j)
            i = j
        elif c.isdigit():
            j = i + 1
            while j < n and (src[j] in _IDENT_CONT or (src[j] == "." and j + 1 < n and src[j + 1].isdigit())):
                j += 1
            yield ("num", i, j)
            i = j
        else:
            yield ("punct", i, i + 1)
            i += 1


_OPEN = {"(": ")", "[": "]", "{": "}"}
_CLOSE = {")", "]", "}"}


def match_close(src, open_pos):
    """Index of the bracket closing the one at open_pos."""
    want = []
    for kind, s, e in lex(src, open_pos):
        if kind != "punct":
            continue
        ch = src[s]
        if ch in _OPEN:
            want.append(_OPEN[ch])
        elif ch in _CLOSE:
            if not want or want[-1] != ch:
                raise AnchorLost("unbalanced bracket at %d" % s)
            want.pop()
            if not want:
                return s
    raise AnchorLost("unclosed bracket at %d" % open_pos)


def _code_tokens(src, start, end):
    """Significant tokens (no ws/comments) of a region, as (kind,start,end)."""
    return [t for t in lex(src, start, end) if t[0] not in ("ws", "comment", "doc")]


def _norm(s):
    return re.sub(r"\s+", "", s)


ITEM_KW = {"fn", "impl", "enum", "struct", "const", "trait", "type", "static", "mod", "macro_rules", "use"}


def top_level_items(src, start, end):
    """Split a region (file or the inside of an impl/mod/trait body) into items.

    Returns list of dict(kind, name, header, start, end, body_open, body_close) where
    [start,end) covers attributes + doc comments + the item.
    """
    items = []
    toks = list(lex(src, start, end))
    i = 0
    n = len(toks)
    item_start = None
    while i < n:
        kind, s, e = toks[i]
        if kind in ("ws", "comment"):
            i += 1
            continue
        if item_start is None:
            item_start = s
        if kind == "doc":
            i += 1
            continue
        text = src[s:e]
        if kind == "punct" and text == "#":
            # attribute: # [ ... ] or # ! [ ... ]
            j = i + 1
            while toks[j][0] in ("ws",) or src[toks[j][1]:toks[j][2]] == "!":
                j += 1
            close = match_close(src, toks[j][1])
            while i < n and toks[i][1] <= close:
                i += 1
            continue
        # now at the first token of the item proper: scan qualifiers to find the keyword
        j = i
        kw = None
        while j < n:
            k2, s2, e2 = toks[j]
            t2 = src[s2:e2]
            if k2 == "ident" and t2 in ITEM_KW:
                # `const fn`, `const unsafe fn`: const is a qualifier if followed by fn/unsafe/extern
                if t2 == "const":
                    k = j + 1
                    while toks[k][0] in ("ws", "comment", "doc"):
                        k += 1
                    nxt = src[toks[k][1]:toks[k][2]]
                    if nxt in ("fn", "unsafe", "extern", "async"):
                        j = k
                        continue
                kw = t2
                break
            if k2 == "punct" and t2 == "(":
                # pub(crate)
                close = match_close(src, s2)
                while toks[j][1] <= close:
                    j += 1
                continue
            if k2 in ("ident", "ws", "comment", "str"):  # pub, unsafe, extern "C", default, async
                j += 1
                continue
            break
        if kw is None:
            # unknown construct (macro invocation etc.): skip to the matching ; or {...}
            kw = "other"
            j = i
        # find the end of the item: first top-level `;` or `{...}` after keyword
        k = j + 1 if kw != "other" else j
        name = None
        header_start = toks[j][1]
        body_open = body_close = None
        item_end = None
        depth_angle = 0
        while k < n:
            k3, s3, e3 = toks[k]
            t3 = src[s3:e3]
            if name is None and k3 == "ident" and kw in ("fn", "enum", "struct", "const", "trait", "type", "static", "mod", "macro_rules"):
                if not (kw == "const" and t3 == "mut") and not (kw == "static" and t3 == "mut"):
                    name = t3
            if k3 == "punct":
                if t3 in "([":
                    close = match_close(src, s3)
                    while k < n and toks[k][1] <= close:
                        k += 1
                    continue
                if t3 == "{":
                    body_open = s3
                    body_close = match_close(src, s3)
                    item_end = body_close + 1
                    # struct Foo {...}  / fn ... {...}: done. (struct X(..); handled via ';')
                    break
                if t3 == ";":
                    item_end = e3
                    break
                if t3 == "=" and kw in ("const", "static", "type"):
                    # initializer may contain braces; scan to the top-level ';'
                    k += 1
                    while k < n:
                        k4, s4, e4 = toks[k]
                        t4 = src[s4:e4]
                        if k4 == "punct" and t4 in "([{":
                            close = match_close(src, s4)
                            while k < n and toks[k][1] <= close:
                                k += 1
                            continue
                        if k4 == "punct" and t4 == ";":
                            item_end = e4
                            break
                        k += 1
                    break
            k += 1
        if item_end is None:
            item_end = end
        header = src[header_start:body_open if body_open is not None else item_end]
        if kw == "macro_rules":
            # macro_rules! name { ... }
            pass
        items.append(dict(kind=kw, name=name, header=header, start=item_start, end=item_end,
                          kw_start=header_start, body_open=body_open, body_close=body_close))
        # advance
        while i < n and toks[i][1] < item_end:
            i += 1
        item_start = None
    return items


def _norm_header(h):
    h = re.sub(r"\bwhere\b.*", "", h, flags=re.S)
    return _norm(h)


def _impl_matches(header, want):
    """header: source text 'impl<Pk: MiniscriptKey> Foo<Pk> ' ; want: 'Foo' or 'Ord for Foo' etc.

    Match is on the text after `impl<...>` with generic argument lists removed, whitespace
    removed; `want` is compared the same way (so 'Satisfaction<Placeholder<Pk>>' can be given
    explicitly too: first an exact comparison with generics is tried).
    """
    h = header.strip()
    assert h.startswith("impl")
    h = h[4:].lstrip()
    if h.startswith("<"):
        # skip generic params
        depth = 0
        for idx, ch in enumerate(h):
            if ch == "<":
                depth += 1
            elif ch == ">" and h[idx - 1] != "-":
                depth -= 1
                if depth == 0:
                    h = h[idx + 1:]
                    break
    h = re.sub(r"\bwhere\b.*", "", h, flags=re.S)
    exact = _norm(h)
    if exact == _norm(want):
        return True

    def strip_generics(s):
        out = []
        depth = 0
        for idx, ch in enumerate(s):
            if ch == "<":
                depth += 1
            elif ch == ">" and (idx == 0 or s[idx - 1] != "-"):
                depth -= 1
            elif depth == 0:
                out.append(ch)
        return "".join(out)
    # keep a space around `for`
    hs = re.sub(r"\s+", " ", strip_generics(h)).strip()
    ws = re.sub(r"\s+", " ", strip_generics(want)).strip()
    return hs == ws


class Region:
    """A slice [start,end) of a source file, remembering file and absolute offsets."""

    def __init__(self, path, src, start, end, item=None):
        self.path, self.src, self.start, self.end, self.item = path, src, start, end, item

    @property
    def text(self):
        return self.src[self.start:self.end]

    def line_of(self, pos=None):
        pos = self.start if pos is None else pos
        return self.src.count("\n", 0, pos) + 1

    def lines(self):
        return (self.line_of(self.start), self.line_of(self.end))

    # -- navigation ----------------------------------------------------------------------------
    def items(self):
        if self.item is not None and self.item["body_open"] is not None:
            return top_level_items(self.src, self.item["body_open"] + 1, self.item["body_close"])
        return top_level_items(self.src, self.start, self.end)

    def find(self, step, nth=0):
        kind, _, name = step.partition(":")
        if kind == "match":
            return self._find_match(name, nth)
        if kind == "block":
            return self._find_block(name, nth)
        hits = []
        for it in self.items():
            if it["kind"] != kind:
                continue
            if kind == "impl":
                if _impl_matches(it["header"], name):
                    hits.append(it)
            elif it["name"] == name:
                hits.append(it)
        if len(hits) <= nth:
            raise AnchorLost("%s: no `%s` (#%d) in %s lines %s" % (self.path, step, nth, self.path, self.lines()))
        it = hits[nth]
        return Region(self.path, self.src, it["start"], it["end"], it)

    def at(self, anchor):
        r = self
        for step in anchor.split("/"):
            m = re.match(r"^(.*)#(\d+)$", step)
            if m:
                r = r.find(m.group(1), int(m.group(2)))
            else:
                r = r.find(step)
        return r

    def body(self):
        """Region between the braces of an fn/impl/... item."""
        it = self.item
        if it is None or it["body_open"] is None:
            raise AnchorLost("%s: item has no body" % self.path)
        return Region(self.path, self.src, it["body_open"] + 1, it["body_close"])

    def header_text(self):
        it = self.item
        return self.src[it["kw_start"]:it["body_open"]] if it["body_open"] is not None else self.src[it["kw_start"]:it["end"]]

    def _find_match(self, scrut, nth=0):
        want = _norm(scrut)
        lo, hi = (self.item["body_open"] + 1, self.item["body_close"]) if self.item is not None and self.item["body_open"] is not None else (self.start, self.end)
        toks = _code_tokens(self.src, lo, hi)
        count = 0
        for idx, (k, s, e) in enumerate(toks):
            if k == "ident" and self.src[s:e] == "match":
                # scrutinee runs to the first `{` at bracket depth 0 (struct literals are not
                # allowed in scrutinee position without parens)
                j = idx + 1
                while j < len(toks):
                    k2, s2, e2 = toks[j]
                    t2 = self.src[s2:e2]
                    if k2 == "punct" and t2 in "([":
                        close = match_close(self.src, s2)
                        while j < len(toks) and toks[j][1] <= close:
                            j += 1
                        continue
                    if k2 == "punct" and t2 == "{":
                        break
                    j += 1
                if j >= len(toks):
                    continue
                scr = _norm(self.src[e:toks[j][1]])
                if scr.startswith(want):
                    if count == nth:
                        close = match_close(self.src, toks[j][1])
                        r = Region(self.path, self.src, toks[j][1] + 1, close)
                        r.match_start = s
                        r.match_end = close + 1
                        r.scrutinee = self.src[e:toks[j][1]].strip()
                        return r
                    count += 1
        raise AnchorLost("%s: no `match %s` (#%d) in lines %s" % (self.path, scrut, nth, self.lines()))

    def _find_block(self, prefix, nth=0):
        """`block:for item in` -> body of the first statement starting with that text and
        ending in a brace block."""
        want = _norm(prefix)
        lo, hi = (self.item["body_open"] + 1, self.item["body_close"]) if self.item is not None and self.item["body_open"] is not None else (self.start, self.end)
        toks = _code_tokens(self.src, lo, hi)
        count = 0
        for idx, (k, s, e) in enumerate(toks):
            if _norm(self.src[s:s + len(prefix) * 3]).startswith(want):
                j = idx
                while j < len(toks):
                    k2, s2, e2 = toks[j]
                    t2 = self.src[s2:e2]
                    if k2 == "punct" and t2 in "([":
                        close = match_close(self.src, s2)
                        while j < len(toks) and toks[j][1] <= close:
                            j += 1
                        continue
                    if k2 == "punct" and t2 == "{":
                        break
                    j += 1
                if j >= len(toks):
                    continue
                if count == nth:
                    close = match_close(self.src, toks[j][1])
                    r = Region(self.path, self.src, toks[j][1] + 1, close)
                    r.stmt_start = s
                    r.stmt_end = close + 1
                    return r
                count += 1
        raise AnchorLost("%s: no block `%s` in lines %s" % (self.path, prefix, self.lines()))


def _skip_turbofish(src, toks, j):
    """If toks[j] is the `<` of a turbofish `::<...>`, return the index after the matching `>`."""
    if src[toks[j][1]:toks[j][2]] != "<" or j < 2:
        return None
    if src[toks[j - 1][1]:toks[j - 1][2]] != ":" or src[toks[j - 2][1]:toks[j - 2][2]] != ":":
        return None
    depth = 0
    k = j
    while k < len(toks):
        t = src[toks[k][1]:toks[k][2]]
        if t == "<":
            depth += 1
        elif t == ">" and src[toks[k][1] - 1] != "-":
            depth -= 1
            if depth == 0:
                return k + 1
        k += 1
    return None


def split_arms(src, start, end):
    """Split a match body into arms.  Returns list of dict(pat, guard, body, start, end,
    body_start, body_end, braced)."""
    toks = _code_tokens(src, start, end)
    arms = []
    i = 0
    n = len(toks)
    while i < n:
        arm_start = toks[i][1]
        # attributes on arms
        while i < n and src[toks[i][1]:toks[i][2]] == "#":
            close = match_close(src, toks[i + 1][1])
            while i < n and toks[i][1] <= close:
                i += 1
            arm_start = toks[i][1] if i < n else arm_start
        # pattern [if guard] =>
        j = i
        guard_at = None
        arrow = None
        while j < n:
            k, s, e = toks[j]
            t = src[s:e]
            if k == "punct" and t in "([{":
                close = match_close(src, s)
                while j < n and toks[j][1] <= close:
                    j += 1
                continue
            if k == "ident" and t == "if" and guard_at is None:
                guard_at = s
            if k == "punct" and t == "=" and j + 1 < n and src[toks[j + 1][1]:toks[j + 1][2]] == ">" and toks[j + 1][1] == e:
                arrow = s
                break
            j += 1
        if arrow is None:
            break
        pat = src[arm_start:guard_at if guard_at is not None else arrow].strip()
        guard = src[guard_at + 2:arrow].strip() if guard_at is not None else None
        j += 2  # past =>
        body_start = toks[j][1]
        # body: a block `{...}` optionally followed by `,`, or an expression up to top-level `,`
        if src[toks[j][1]:toks[j][2]] == "{":
            close = match_close(src, toks[j][1])
            body_end = close + 1
            while j < n and toks[j][1] <= close:
                j += 1
            braced = True
            # `{ ... }.foo()` style continuation: treat like expression
            if j < n and src[toks[j][1]:toks[j][2]] not in (",",) and not _starts_pattern_after_block(src, toks, j):
                braced = False
                while j < n:
                    k, s, e = toks[j]
                    t = src[s:e]
                    if k == "punct" and t in "([{":
                        close = match_close(src, s)
                        while j < n and toks[j][1] <= close:
                            j += 1
                        continue
                    tf = _skip_turbofish(src, toks, j)
                    if tf is not None:
                        j = tf
                        continue
                    if k == "punct" and t == ",":
                        break
                    j += 1
                body_end = toks[j][1] if j < n else end
        else:
            braced = False
            while j < n:
                k, s, e = toks[j]
                t = src[s:e]
                if k == "punct" and t in "([{":
                    close = match_close(src, s)
                    while j < n and toks[j][1] <= close:
                        j += 1
                    continue
                tf = _skip_turbofish(src, toks, j)
                if tf is not None:
                    j = tf
                    continue
                if k == "punct" and t == ",":
                    break
                j += 1
            body_end = toks[j][1] if j < n else end
            # trim trailing whitespace
            while body_end > body_start and src[body_end - 1] in " \t\r\n":
                body_end -= 1
        arm_end = body_end
        if j < n and src[toks[j][1]:toks[j][2]] == ",":
            arm_end = toks[j][2]
            j += 1
        arms.append(dict(pat=pat, guard=guard, body=src[body_start:body_end], start=arm_start, end=arm_end,
                         body_start=body_start, body_end=body_end, braced=braced))
        i = j
    return arms


def _starts_pattern_after_block(src, toks, j):
    """After `=> { ... }` without a comma the next token starts a new arm's pattern.  A
    continuation of the expression would start with `.`, `?`, an operator, or `as`."""
    t = src[toks[j][1]:toks[j][2]]
    return not (t in (".", "?") or t == "as")


def strip_docs(text):
    """Drop doc comments, ordinary comments and `#[doc..]`/`#[inline..]`/`#[cfg_attr(..doc..)]`
    attributes.  Keeps line structure (replaces by nothing but preserves newlines) so that line
    numbers inside the item stay aligned with the source."""
    out = []
    toks = list(lex(text))
    i = 0
    while i < len(toks):
        k, s, e = toks[i]
        if k in ("doc", "comment"):
            out.append("\n" * text.count("\n", s, e))
        elif k == "punct" and text[s:e] == "#":
            j = i + 1
            while toks[j][0] == "ws" or text[toks[j][1]:toks[j][2]] == "!":
                j += 1
            close = match_close(text, toks[j][1])
            attr = text[s:close + 1]
            if re.match(r"#\s*!?\[\s*(doc|inline|must_use|deprecated|allow|rustfmt|cfg_attr\s*\(\s*docsrs)", attr):
                out.append("\n" * attr.count("\n"))
                while i < len(toks) and toks[i][1] <= close:
                    i += 1
                continue
            out.append(text[s:e])
        else:
            out.append(text[s:e])
        i += 1
    return "".join(out)


class Repo:
    def __init__(self, root="/repo"):
        self.root = root
        self._cache = {}

    def file(self, rel):
        if rel not in self._cache:
            try:
                with open("%s/%s" % (self.root, rel)) as f:
                    src = f.read()
            except OSError as e:
                raise AnchorLost("cannot read %s: %s" % (rel, e))
            self._cache[rel] = Region(rel, src, 0, len(src))
        return self._cache[rel]

    def at(self, rel, anchor):
        return self.file(rel).at(anchor)


if __name__ == "__main__":
    import sys
    r = Repo(sys.argv[1] if len(sys.argv) > 3 else "/repo")
    reg = r.at(sys.argv[-2], sys.argv[-1])
    print("lines", reg.lines())
    print(reg.text)
