"""From a failed obligation to a concrete failing input (where the unit knows how)."""
import json


def try_counterexample(pid, failure, rec, units, repo_root):
    unit_name = failure["id"].split(".")[0]
    mod = units.get(unit_name)
    hook = getattr(mod, "counterexample", None) if mod else None
    if hook is None:
        return
    try:
        cx = hook(failure, repo_root)
    except Exception as e:  # a failing search never turns into an alarm of its own
        rec["replay_search_error"] = str(e)[:500]
        return
    if cx:
        rec["counterexample"] = cx
        rec["replayed"] = True
        rec["note"] = "counterexample found and replayed against the real crate built from /repo"


def replay_file(path, units, repo_root):
    with open(path) as f:
        rec = json.load(f)
    unit_name = rec["obligation"].split(".")[0]
    mod = units.get(unit_name)
    hook = getattr(mod, "replay", None) if mod else None
    print("obligation: %s" % rec["obligation"])
    print(rec.get("verifier_output", "")[:2000])
    if hook is None or not rec.get("counterexample"):
        print("no executable counterexample recorded; re-run the check to re-decide the obligation")
        return 0
    still = hook(rec, repo_root)
    print("replay: real code %s the oracle on the recorded input" % ("still disagrees with" if still else "now agrees with"))
    return 1 if still else 0
