"""Builds the replay binary (replay/) against the repository under check and runs it."""
import os
import shutil
import subprocess
import tempfile

ROOT = os.path.dirname(os.path.dirname(os.path.abspath(__file__)))
TARGET = os.path.join(ROOT, ".cache", "replay-target")


def run(repo_root, args, timeout=900):
    """Returns (rc, stdout).  The crate is generated in a scratch dir with the path dependency pointing
    at `repo_root`, so it is always the current working tree that is exercised."""
    work = tempfile.mkdtemp(prefix="verif-replay-")
    try:
        shutil.copytree(os.path.join(ROOT, "replay", "src"), os.path.join(work, "src"))
        # oracle rendering: the same text as the Verus oracle, `pub open spec fn` -> `pub fn`
        o = open(os.path.join(ROOT, "contracts", "oracle", "types_spec.rs")).read().replace("pub open spec fn", "pub fn")
        open(os.path.join(work, "src", "types_oracle.rs"), "w").write("#![allow(dead_code)]\n" + o)
        ct = open(os.path.join(ROOT, "replay", "Cargo.toml")).read().replace('path = "/repo"', 'path = "%s"' % repo_root)
        open(os.path.join(work, "Cargo.toml"), "w").write(ct)
        lock = os.path.join(repo_root, "Cargo.lock")
        if os.path.exists(lock):
            shutil.copy(lock, os.path.join(work, "Cargo.lock"))
        env = dict(os.environ, CARGO_NET_OFFLINE="true", CARGO_TARGET_DIR=TARGET)
        b = subprocess.run(["cargo", "build", "--offline", "-q"], cwd=work, env=env, capture_output=True, text=True, timeout=timeout)
        if b.returncode != 0:
            return (99, "replay build failed:\n" + b.stderr[-2000:])
        p = subprocess.run([os.path.join(TARGET, "debug", "verif-replay")] + list(args), capture_output=True, text=True, timeout=timeout)
        return (p.returncode, p.stdout + p.stderr)
    finally:
        shutil.rmtree(work, ignore_errors=True)
